package main

import (
	"math"

	"verifharness/internal/m"
	"verifharness/internal/rng"
)

// small universes shared by the decision-logic streams
var (
	uOrg    = []uint64{0, 1, 2, 999}
	uApp    = []uint64{0, 1, 2, 3}
	uStr    = []string{"", "a", "ab", "abc", "b"}
	uFeat   = []string{"wg", "billing", "deletion", "litefs-cloud", "nosuch", "membership", ""}
	uMask   = []uint16{0, 1, 2, 3, 4, 5, 8, 16, 17, 31, 32, 0x1f | 0x100, 0xffff}
	uAction = []uint16{0, 1, 2, 3, 4, 8, 16, 31, 32, 0xffff}
	uRoles  = []uint64{0, 1, 2, 3, 0xFFFFFFFF, 0xFFFFFFFE, 0x7FFFFFFF}
	uCmdArg = []string{"ls", "-l", "rm", ""}
)

func pS(s string) *string { return &s }
func pN(n uint64) *uint64 { return &n }

func randRSN(r *rng.R) []m.EntN {
	n := r.Intn(4)
	seen := map[uint64]bool{}
	var o []m.EntN
	for i := 0; i < n; i++ {
		k := rng.Pick(r, uApp)
		if seen[k] {
			continue
		}
		seen[k] = true
		o = append(o, m.EntN{K: k, M: rng.Pick(r, uMask)})
	}
	return o
}

func randRSS(r *rng.R, keys []string) []m.EntS {
	n := r.Intn(4)
	seen := map[string]bool{}
	var o []m.EntS
	for i := 0; i < n; i++ {
		k := rng.Pick(r, keys)
		if seen[k] {
			continue
		}
		seen[k] = true
		o = append(o, m.EntS{K: k, M: rng.Pick(r, uMask)})
	}
	return o
}

func randStrs(r *rng.R, u []string, max int) *[]string {
	if r.P(1, 6) {
		return nil
	}
	n := r.Intn(max + 1)
	o := make([]string, 0, n)
	for i := 0; i < n; i++ {
		o = append(o, rng.Pick(r, u))
	}
	return &o
}

var int64Edges = []int64{math.MinInt64, math.MinInt64 + 1, -62135596801, -62135596800, -62135596799, -1, 0, 1,
	math.MaxInt64 - 62135596801, math.MaxInt64 - 62135596800, math.MaxInt64 - 62135596799, math.MaxInt64 - 1, math.MaxInt64}

func randWindowEdge(r *rng.R, now m.T) int64 {
	switch r.Intn(6) {
	case 0:
		return rng.Pick(r, int64Edges)
	case 1:
		return now.Sec
	case 2:
		return now.Sec + 1
	case 3:
		return now.Sec - 1
	case 4:
		return now.Sec + int64(r.Intn(7200)) - 3600
	}
	return now.Sec + int64(r.Intn(7)) - 3
}

// flyioKinds are the caveat kinds whose rule reads a flyio.Access
var flyioKinds = []string{"COrganization", "CApps", "CVolumes", "CMachines", "CMachineFeatureSet", "CFeatureSet",
	"CClusters", "CAppFeatureSet", "CStorageObjects", "CMutations", "CIsUser", "CAllowedRoles", "CIsMember",
	"CCommands", "CFromMachine", "CFlySrc", "CValidityWindow", "CAction", "CIfPresent"}

var otherKinds = []string{"C3P", "CBind", "CUnregistered", "CFlyioUserID", "CGitHubUserID", "CGoogleUserID",
	"CConfineUser", "CConfineOrganization", "CConfineGoogleHD", "CConfineGitHubOrg", "CMaxValidity"}

func randCavOf(r *rng.R, kind string, depth int, now m.T) m.Cav {
	c := m.Cav{Kind: kind}
	switch kind {
	case "COrganization":
		c.ID, c.Mask = rng.Pick(r, uOrg), uint64(rng.Pick(r, uMask))
	case "CApps":
		c.RSN = randRSN(r)
	case "CVolumes", "CMachines", "CMachineFeatureSet", "CClusters", "CAppFeatureSet", "CStorageObjects":
		c.RSS = randRSS(r, uStr)
	case "CFeatureSet":
		c.RSS = randRSS(r, uFeat)
	case "CMutations":
		c.Strs = randStrs(r, uStr, 3)
	case "CIsUser", "CFlyioUserID", "CGitHubUserID", "CGoogleUserID", "CConfineUser", "CConfineOrganization", "CConfineGitHubOrg":
		c.ID = uint64(r.Intn(4))
	case "CMaxValidity":
		c.ID = uint64(r.Intn(100000))
	case "CAllowedRoles":
		c.Mask = rng.Pick(r, uRoles)
	case "CIsMember":
	case "CCommands":
		if !r.P(1, 6) {
			n := r.Intn(3)
			cmds := make([]m.Cmd, 0, n)
			for i := 0; i < n; i++ {
				cmds = append(cmds, m.Cmd{Args: randStrs(r, uCmdArg, 3), Exact: r.Bool()})
			}
			c.Cmds = &cmds
		}
	case "CFromMachine", "CConfineGoogleHD":
		c.S[0] = rng.Pick(r, uStr)
	case "CFlySrc":
		c.S = [3]string{rng.Pick(r, uStr[:3]), rng.Pick(r, uStr[:3]), rng.Pick(r, uStr[:3])}
	case "CValidityWindow":
		c.NB, c.NA = randWindowEdge(r, now), randWindowEdge(r, now)
		if r.P(1, 2) && c.NB > c.NA {
			c.NB, c.NA = c.NA, c.NB
		}
	case "CAction":
		c.Mask = uint64(rng.Pick(r, uMask))
	case "CIfPresent":
		c.Mask = uint64(rng.Pick(r, uMask))
		if depth <= 0 || !r.P(1, 12) {
			n := r.Intn(4)
			if depth <= 0 {
				n = 0
			}
			ifs := make([]m.Cav, 0, n)
			for i := 0; i < n; i++ {
				ifs = append(ifs, randCav(r, depth-1, now))
			}
			c.Ifs = &ifs
		}
	case "C3P":
		c.S[0] = rng.Pick(r, uStr)
		b1, b2 := r.Bytes(r.Intn(4)), r.Bytes(r.Intn(4))
		c.B1, c.B2 = &b1, &b2
	case "CBind":
		b := r.Bytes(r.Intn(5))
		c.B1 = &b
	case "CUnregistered":
		c.ID = uint64(200 + r.Intn(3))
		if unregAnyType && r.P(1, 3) {
			// an unknown caveat may carry ANY type number, also one that another binary registers (an attestation's, say)
			c.ID = rng.Pick(r, []uint64{1, 12, 13, 22, 23, 24, 25, 26, 31})
		}
		c.Body = [][]byte{{0xc0}, {0x01}, {0x92, 0x01, 0xa1, 'x'}, {0x81, 0xa1, 'k', 0x05}, {0xc4, 0x01, 0xff}}[r.Intn(5)]
	}
	return c
}

// unregAnyType lets unknown caveats carry type numbers that this binary registers (the clearing layer builds such values
// directly); the codec streams turn it off because there the value has to survive an encode/decode in this binary
var unregAnyType = true

func randCav(r *rng.R, depth int, now m.T) m.Cav {
	if r.P(1, 7) {
		return randCavOf(r, rng.Pick(r, otherKinds), depth, now)
	}
	return randCavOf(r, rng.Pick(r, flyioKinds), depth, now)
}

func randCavs(r *rng.R, max, depth int, now m.T) []m.Cav {
	n := r.Intn(max + 1)
	o := make([]m.Cav, 0, n)
	for i := 0; i < n; i++ {
		o = append(o, randCav(r, depth, now))
	}
	return o
}

// containsAttestationInWrapper: such sets are refused by Add/verify but can still be built as values
func hasKind(cs []m.Cav, kinds ...string) bool {
	for _, c := range cs {
		for _, k := range kinds {
			if c.Kind == k {
				return true
			}
		}
		if c.Kind == "CIfPresent" && c.Ifs != nil && hasKind(*c.Ifs, kinds...) {
			return true
		}
	}
	return false
}

func optStr(r *rng.R, u []string, pNum, pDen int) *string {
	if r.P(pNum, pDen) {
		return pS(rng.Pick(r, u))
	}
	return nil
}

// randFlyioAccess: mostly well-formed requests (a hierarchy path), sometimes arbitrary presence patterns
func randFlyioAccess(r *rng.R, now m.T) m.Acc {
	a := m.Acc{Kind: "AFlyio", Action: rng.Pick(r, uAction), Now: now}
	if r.P(1, 5) { // arbitrary presence pattern
		if r.P(4, 5) {
			a.Org = pN(rng.Pick(r, uOrg))
		}
		if r.Bool() {
			a.App = pN(rng.Pick(r, uApp))
		}
		a.Feature = optStr(r, uFeat, 1, 3)
		a.Storage = optStr(r, uStr, 1, 4)
		a.Machine = optStr(r, uStr, 1, 3)
		a.Volume = optStr(r, uStr, 1, 4)
		a.AppFeature = optStr(r, uStr, 1, 4)
		a.Cluster = optStr(r, uStr, 1, 4)
		a.MachineFeature = optStr(r, uStr, 1, 4)
		if r.P(1, 4) {
			a.Command = randStrs(r, uCmdArg, 3)
		}
	} else {
		a.Org = pN(rng.Pick(r, uOrg))
		switch r.Intn(6) {
		case 0: // org only
		case 1, 2: // app and maybe a child
			a.App = pN(rng.Pick(r, uApp))
			switch r.Intn(5) {
			case 0:
				a.Machine = pS(rng.Pick(r, uStr))
				switch r.Intn(3) {
				case 0:
					cmd := randStrs(r, uCmdArg, 3)
					if cmd == nil {
						cmd = &[]string{}
					}
					a.Command = cmd
				case 1:
					a.MachineFeature = pS(rng.Pick(r, uStr))
				}
			case 1:
				a.Volume = pS(rng.Pick(r, uStr))
			case 2:
				a.AppFeature = pS(rng.Pick(r, uStr))
			}
		case 3:
			a.Feature = pS(rng.Pick(r, uFeat))
		case 4:
			a.Feature = pS("litefs-cloud")
			a.Cluster = pS(rng.Pick(r, uStr))
		case 5:
			a.Storage = pS(rng.Pick(r, uStr))
		}
	}
	a.Mutation = optStr(r, uStr, 1, 4)
	a.SrcMachine = optStr(r, uStr[:3], 1, 3)
	a.SrcApp = optStr(r, uStr[:3], 1, 3)
	a.SrcOrg = optStr(r, uStr[:3], 1, 3)
	return a
}

func randAccess(r *rng.R, now m.T) m.Acc {
	switch r.Intn(12) {
	case 0:
		return m.Acc{Kind: "ABare", Valid: !r.P(1, 3), Now: now}
	case 1:
		return m.Acc{Kind: "AActionOnly", Action: rng.Pick(r, uAction), Now: now}
	}
	return randFlyioAccess(r, now)
}

func randNow(r *rng.R) m.T {
	switch r.Intn(8) {
	case 0:
		return m.T{Sec: rng.Pick(r, int64Edges), Nsec: int64(r.Intn(2))}
	case 1:
		return m.T{Sec: 0, Nsec: int64(r.Intn(3))}
	}
	return m.T{Sec: 1700000000 + int64(r.Intn(1000)), Nsec: int64(r.Intn(3)) * 499999999}
}
