//go:build verif

package main

// Typed lenient decoding of whole TOKENS (extension of C11): macaroon.Decode on array and map forms of tokens of both nonce
// versions - reordered, unknown and repeated field names (decoy nonces of 2 and 3 fields before and after the genuine one,
// repeated caveat sets / locations / tails, nil values), str / bin / nil variants of every byte string and key, every header
// width, trailing bytes, truncations, wrong arities.  Case kind KDecTok of Corr.RunM; model: Model.TokenDec.dec_token_gen
// (the repaired decoder) followed by enc_tok.  What is compared is the canonical re-encoding of the decoded token
// (VerifEncode), which spells out every field: nonce version, kid, rnd, proof flag, location, caveats, tail.
//
// As in c11_typed2.go the re-encoding is taken after replacing nil resource sets by empty ones (t2Norm).

import (
	"bytes"
	"fmt"

	"github.com/superfly/macaroon"
	"github.com/superfly/macaroon/resset"

	"verifharness/internal/coqw"
	"verifharness/internal/cs"
	"verifharness/internal/rng"
)

func init() {
	props["C11TOK"] = func(c *ctx) { genTokenForms(c, c.set.Stream("token", "Corr.RunM", "run", 400)) }
}

// the documented inputs (coq/Model/TokenDec.v, coq/Proofs/TokenDecProofs.v and the report)
var tokDocumented = []string{
	// F16: Nonce twice, 3-field decoy with proof = true, then the genuine 2-field nonce
	"85 a5 4e 6f 6e 63 65 93 c4 01 78 c4 01 79 c3 a5 4e 6f 6e 63 65 92 c4 01 6b c4 10 00 01 02 03 04 05 06 07 08 09 0a 0b 0c 0d 0e 0f a8 4c 6f 63 61 74 69 6f 6e a1 6c ad 55 6e 73 61 66 65 43 61 76 65 61 74 73 90 a4 54 61 69 6c c4 20 aa aa aa aa aa aa aa aa aa aa aa aa aa aa aa aa aa aa aa aa aa aa aa aa aa aa aa aa aa aa aa aa",
	"c0", "c0 01", "90", "80", "94 c0 c0 c0 c0", "91 c0", "92 c0 c0", "93 c0 c0 c0", "95 c0 c0 c0 c0 c0", "dc 00 04 c0 c0 c0 c0", "dd 00 00 00 04 c0 c0 c0 c0",
	"94 92 c0 c0 a0 90 c0", "94 93 c0 c0 c0 a0 90 c0", "94 93 c0 c0 c3 a0 90 c0", "94 93 a1 6b d9 01 72 c3 c4 01 6c 90 a1 74",
	"94 90 a0 90 c0", "94 91 c0 a0 90 c0", "94 94 c0 c0 c0 c0 a0 90 c0", "94 93 c0 c0 01 a0 90 c0", "94 80 a0 90 c0",
	"81 a5 4e 6f 6e 63 65 c0", "81 a5 4e 6f 6e 63 65 93 c0 c0 c3", "82 a5 4e 6f 6e 63 65 93 c0 c0 c3 a5 4e 6f 6e 63 65 c0",
	"82 a5 4e 6f 6e 63 65 93 c0 c0 c3 a5 4e 6f 6e 63 65 92 c0 c0", "82 a5 4e 6f 6e 63 65 92 a1 61 a1 62 a5 4e 6f 6e 63 65 93 c0 c0 c3",
	"82 a5 4e 6f 6e 63 65 93 a1 61 a1 62 c3 a5 4e 6f 6e 63 65 93 c0 c0 c0",
	// UnsafeCaveats twice: appended; nil in between: reset
	"82 ad 55 6e 73 61 66 65 43 61 76 65 61 74 73 92 1a 01 ad 55 6e 73 61 66 65 43 61 76 65 61 74 73 92 1a 02",
	"83 ad 55 6e 73 61 66 65 43 61 76 65 61 74 73 92 1a 01 ad 55 6e 73 61 66 65 43 61 76 65 61 74 73 c0 ad 55 6e 73 61 66 65 43 61 76 65 61 74 73 92 1a 02",
	"82 ad 55 6e 73 61 66 65 43 61 76 65 61 74 73 92 1a 01 ad 55 6e 73 61 66 65 43 61 76 65 61 74 73 c0",
	// Location / Tail twice: the last wins, nil resets
	"82 a8 4c 6f 63 61 74 69 6f 6e a1 61 a8 4c 6f 63 61 74 69 6f 6e a1 62", "82 a8 4c 6f 63 61 74 69 6f 6e a1 61 a8 4c 6f 63 61 74 69 6f 6e c0",
	"82 a4 54 61 69 6c a1 61 a4 54 61 69 6c c4 00", "82 a4 54 61 69 6c a1 61 a4 54 61 69 6c c0",
	// keys: bin, nil, unknown, wrong case; ext header in front of the map (not skipped at this level)
	"81 c4 04 54 61 69 6c a1 61", "81 c0 01", "81 a4 74 61 69 6c a1 61", "82 a1 78 92 01 02 a4 54 61 69 6c a1 61", "81 01 01", "d4 00 80", "c7 00 00 80",
	"de 00 01 a4 54 61 69 6c a1 61", "df 00 00 00 01 a4 54 61 69 6c a1 61", "82 a4 54 61 69 6c a1 61", "81 a4 54 61 69 6c",
}

type tokGen struct {
	g *t2Gen
	r *rng.R
}

func (tg *tokGen) bytesAny(b []byte, nilOK bool) []byte {
	if b == nil && nilOK {
		return []byte{0xc0}
	}
	return tg.g.strAny(string(b))
}

// a nonce: nf fields announced, kid / rnd / proof in any accepted form
func (tg *tokGen) nonce(nf int, kid, rnd []byte, proof bool, pBad int) []byte {
	r := tg.r
	if r.P(1, pBad) {
		return rng.Pick(r, [][]byte{{0xc0}, {0x90}, {0x91, 0xc0}, {0x94, 0xc0, 0xc0, 0xc0, 0xc0}, {0x80}, {0x01}, {0xa0}, {0x92, 0x01, 0x02}, {0x93, 0xc0, 0xc0, 0x01}, {0x93, 0xc0, 0xc0, 0xa0}, {0x92, 0xc0}, {0x93, 0xc0, 0xc0}})
	}
	b := tdArrHdr(rng.Pick(r, []int{0, 0, 0, 1, 2}), nf)
	if nf >= 1 {
		b = append(b, tg.bytesAny(kid, true)...)
	}
	if nf >= 2 {
		b = append(b, tg.bytesAny(rnd, true)...)
	}
	if nf >= 3 {
		switch {
		case r.P(1, pBad):
			b = append(b, tg.g.boolTok(1)...)
		case proof:
			b = append(b, 0xc3)
		default:
			b = append(b, rng.Pick(r, []byte{0xc2, 0xc2, 0xc0}))
		}
	}
	for i := 3; i < nf; i++ {
		b = append(b, 0xc0)
	}
	return b
}

func (tg *tokGen) cavs(pBad int) []byte {
	r := tg.r
	switch {
	case r.P(1, 10):
		return []byte{0xc0}
	case r.P(1, 3):
		var set []macaroon.Caveat
		for k := r.Intn(4); k > 0; k-- {
			set = append(set, edgeCav(r, 1).Go())
		}
		b, err := macaroon.NewCaveatSet(set...).MarshalMsgpack()
		if err == nil {
			return b
		}
	}
	return tg.g.set(2, 3, pBad)
}

type tokVals struct {
	ver        int
	kid, rnd   []byte
	proof      bool
	loc        string
	tail       []byte
	tailIsNil  bool
	kidIsNil   bool
	nonceField []byte
}

func (tg *tokGen) vals() tokVals {
	r := tg.r
	v := tokVals{ver: r.Intn(2)}
	v.proof = v.ver == 1 && r.P(1, 2)
	v.kid = r.Bytes(rng.Pick(r, []int{0, 1, 3, 33}))
	if r.P(1, 8) {
		v.kid = nil
	}
	v.rnd = r.Bytes(rng.Pick(r, []int{16, 16, 0, 5}))
	if r.P(1, 12) {
		v.rnd = nil
	}
	v.loc = rng.Pick(r, []string{"", "l", "https://api.fly.io/v1", edgeStr(r)})
	v.tail = r.Bytes(rng.Pick(r, []int{32, 32, 0, 7}))
	if r.P(1, 10) {
		v.tail = nil
	}
	return v
}

func (tg *tokGen) field(name string, v tokVals, pBad int) []byte {
	r := tg.r
	switch name {
	case "Nonce":
		return tg.nonce(2+v.ver, v.kid, v.rnd, v.proof, pBad)
	case "Location":
		if r.P(1, pBad) {
			return tg.g.bad()
		}
		return tg.g.strAny(v.loc)
	case "UnsafeCaveats":
		return tg.cavs(pBad)
	default:
		if r.P(1, pBad) {
			return tg.g.bad()
		}
		return tg.bytesAny(v.tail, true)
	}
}

var tokNames = []string{"Nonce", "Location", "UnsafeCaveats", "Tail"}

func (tg *tokGen) arrayForm(v tokVals, pBad int) []byte {
	r := tg.r
	n := 4
	if r.P(1, 12) {
		n = rng.Pick(r, []int{0, 1, 2, 3, 5, 6})
	}
	b := tdArrHdr(rng.Pick(r, []int{0, 0, 0, 1, 2}), n)
	for i := 0; i < n; i++ {
		if i < 4 {
			b = append(b, tg.field(tokNames[i], v, pBad)...)
		} else {
			b = append(b, 0xc0)
		}
	}
	return b
}

func (tg *tokGen) mapForm(v tokVals, pBad int) []byte {
	r := tg.r
	type ent struct{ k, val []byte }
	var ents []ent
	key := func(name string) []byte {
		if r.P(1, 40) {
			return rng.Pick(r, [][]byte{{0xc0}, {0x01}, {0xa0}, tdCat([]byte{byte(0xa0 + len(name))}, bytes.ToLower([]byte(name)))})
		}
		return tdKey(r, name)
	}
	for _, nmv := range tokNames {
		if r.P(1, 10) {
			continue // missing field
		}
		ents = append(ents, ent{key(nmv), tg.field(nmv, v, pBad)})
	}
	// repeated fields
	for k := r.Intn(4); k > 0; k-- {
		var e ent
		switch r.Intn(7) {
		case 0: // 3-field decoy with proof = true
			e = ent{key("Nonce"), tg.nonce(3, r.Bytes(1), r.Bytes(1), true, 0x7fffffff)}
		case 1: // 2-field decoy
			e = ent{key("Nonce"), tg.nonce(2, r.Bytes(2), r.Bytes(16), false, 0x7fffffff)}
		case 2:
			e = ent{key("Nonce"), tg.nonce(2+r.Intn(2), v.kid, v.rnd, r.Bool(), pBad)}
		case 3:
			e = ent{key("UnsafeCaveats"), tg.cavs(pBad)}
		case 4:
			e = ent{key("Location"), rng.Pick(r, [][]byte{{0xc0}, {0xa1, 'z'}, tg.g.strAny("other")})}
		case 5:
			e = ent{key("Tail"), rng.Pick(r, [][]byte{{0xc0}, {0xc4, 0}, {0xa1, 'z'}, tg.g.strAny("0123456789abcdef0123456789abcdef")})}
		default: // unknown key
			e = ent{tg.g.strAny(rng.Pick(r, []string{"x", "", "nonce", "Nonce2", "newProof", "tail"})), randMsgpack(r, 2)}
		}
		if r.Bool() {
			ents = append([]ent{e}, ents...) // before the genuine ones
		} else {
			pos := r.Intn(len(ents) + 1)
			ents = append(ents[:pos], append([]ent{e}, ents[pos:]...)...)
		}
	}
	if r.P(1, 2) { // reorder
		for i := len(ents) - 1; i > 0; i-- {
			j := r.Intn(i + 1)
			ents[i], ents[j] = ents[j], ents[i]
		}
	}
	ann := len(ents)
	if r.P(1, 25) {
		ann += rng.Pick(r, []int{-1, 1})
		if ann < 0 {
			ann = 0
		}
	}
	form := rng.Pick(r, []int{0, 0, 0, 1, 2})
	if ann > 15 && form == 0 {
		form = 1
	}
	b := tdMapHdr(form, ann)
	for _, e := range ents {
		b = append(b, e.k...)
		b = append(b, e.val...)
	}
	return b
}

func tokDecode(input []byte) (ok bool, reenc []byte, impl string, oracle string) {
	defer func() {
		if p := recover(); p != nil {
			ok, reenc = false, nil
			oracle = fmt.Sprintf("panic while decoding %x: %v", input, p)
		}
	}()
	tok, err := macaroon.Decode(input)
	if err != nil {
		return false, nil, err.Error(), ""
	}
	kid, rnd, proof, ver := macaroon.VerifNonceFields(tok.Nonce)
	impl = fmt.Sprintf("ver=%d proof=%v kid=%x rnd=%x loc=%q ncav=%d tail=%x", ver, proof, kid, rnd, tok.Location, len(tok.UnsafeCaveats.Caveats), tok.Tail)
	if ver == 0 && proof {
		oracle = fmt.Sprintf("accepted input %x decodes to an old-format (version 0) nonce with the proof flag set", input)
	}
	if ver != 0 && ver != 1 {
		oracle = fmt.Sprintf("accepted input %x decodes to nonce version %d", input, ver)
	}
	re, rerr := macaroon.VerifEncode(tok)
	if rerr != nil {
		return false, nil, impl, fmt.Sprintf("Decode(%x) succeeds but the token does not re-encode: %v", input, rerr)
	}
	// what is signed (the re-encoding) decodes to a token with the same fields, and is a fixed point
	if tok2, err2 := macaroon.Decode(re); err2 != nil {
		oracle = fmt.Sprintf("re-encoding %x of the accepted input %x does not decode: %v", re, input, err2)
	} else if re2, err3 := macaroon.VerifEncode(tok2); err3 != nil || !bytes.Equal(re2, re) {
		oracle = fmt.Sprintf("re-encoding %x of the accepted input %x is not a fixed point (%x, %v)", re, input, re2, err3)
	} else {
		k2, r2, p2, v2 := macaroon.VerifNonceFields(tok2.Nonce)
		if p2 != proof || v2 != ver || !bytes.Equal(k2, kid) || !bytes.Equal(r2, rnd) || (k2 == nil) != (kid == nil) || (r2 == nil) != (rnd == nil) ||
			tok2.Location != tok.Location || !bytes.Equal(tok2.Tail, tok.Tail) || (tok2.Tail == nil) != (tok.Tail == nil) || !t2SameSet(&tok.UnsafeCaveats, &tok2.UnsafeCaveats) {
			oracle = fmt.Sprintf("the accepted input %x decodes to a token that differs from the one its re-encoding %x decodes to", input, re)
		}
	}
	for _, cv := range tok.UnsafeCaveats.Caveats {
		t2Norm(cv)
	}
	nre, nerr := macaroon.VerifEncode(tok)
	if nerr != nil {
		return false, nil, impl, fmt.Sprintf("normalised token of %x does not re-encode: %v", input, nerr)
	}
	return true, nre, impl, oracle
}

func genTokenForms(c *ctx, st *cs.Stream) {
	r := rng.New(c.set.Seed ^ hashStr("C11/token-forms"))
	g := &t2Gen{r: r, ints: tdIntToks(r), strs: tdStrToks(r), wrong: tdWrongToks()}
	tg := &tokGen{g: g, r: r}
	// which decoder did msgpack build for *CaveatSet in this process?  (see c11_typed2.go and coq/Model/TypedDec2.v)
	pz := false
	if set, err := macaroon.DecodeCaveats(t2Hex("92 0d 82 a3 49 66 73 92 08 91 05 a3 49 66 73 c0")); err == nil && len(set.Caveats) == 1 {
		if ip, isIP := set.Caveats[0].(*resset.IfPresent); isIP && ip.Ifs != nil {
			pz = true
		}
	}
	seen := map[string]bool{}
	accepted, refused, v0, v1, proofs := 0, 0, 0, 0, 0
	emit := func(input []byte, form string) {
		if seen[string(input)] || t2MentionsHarnessType(input) {
			return
		}
		seen[string(input)] = true
		ok, reenc, impl, oracle := tokDecode(input)
		if ok {
			accepted++
			if len(reenc) > 1 && reenc[1] == 0x92 {
				v0++
			} else {
				v1++
			}
			if bytes.Contains(reenc[:imin(len(reenc), 80)], []byte{0xc3}) {
				proofs++
			}
		} else {
			refused++
		}
		st.Add(&cs.Case{Coq: coqw.App("KDecTok", coqw.Bool(pz), coqw.Packed(input), coqw.Bool(ok), coqw.Packed(reenc)),
			Desc:  map[string]any{"op": "typed decode of a token", "form": form, "input_hex": fmt.Sprintf("%x", input[:imin(len(input), 128)]), "input_len": len(input), "ok": ok, "impl": impl},
			Class: "dectok/" + form, Nontrivial: ok, OracleFail: oracle})
	}
	for _, d := range tokDocumented {
		emit(t2Hex(d), "documented")
	}
	// the documented F16 input, cut at every position and with trailing bytes
	f16 := t2Hex(tokDocumented[0])
	for i := 0; i < len(f16); i += 3 {
		emit(f16[:i], "truncated")
	}
	emit(tdCat(f16, []byte{0xc1}), "trailing")
	nArr, nMap := 250, 700
	if c.thorough {
		nArr, nMap = 4000, 12000
	}
	mutate := func(b []byte) ([]byte, string) {
		switch {
		case r.P(1, 20):
			return append(b, r.Bytes(1+r.Intn(3))...), "/trailing"
		case r.P(1, 30) && len(b) > 1:
			return b[:len(b)-1-r.Intn(imin(len(b)-1, 3))], "/cut"
		}
		return b, ""
	}
	for i := 0; i < nArr; i++ {
		pBad := 40
		if i%5 == 0 {
			pBad = 6
		}
		b, sfx := mutate(tg.arrayForm(tg.vals(), pBad))
		emit(b, "array"+sfx)
	}
	for i := 0; i < nMap; i++ {
		pBad := 60
		if i%5 == 0 {
			pBad = 8
		}
		b, sfx := mutate(tg.mapForm(tg.vals(), pBad))
		emit(b, "map"+sfx)
	}
	// canonical tokens of both versions, as the library writes them, and the same with a decoy in front (map form)
	for i := 0; i < 40; i++ {
		v := tg.vals()
		tok := &macaroon.Macaroon{Nonce: macaroon.VerifNonce(v.kid, v.rnd, v.proof, v.ver), Location: v.loc, Tail: v.tail}
		for k := r.Intn(3); k > 0; k-- {
			tok.UnsafeCaveats.Caveats = append(tok.UnsafeCaveats.Caveats, edgeCav(r, 1).Go())
		}
		if b, err := macaroon.VerifEncode(tok); err == nil {
			emit(b, "canonical")
			nb := tok.Nonce.MustEncode()
			rest := b[1+len(nb):]
			_ = rest
			cb, _ := tok.UnsafeCaveats.MarshalMsgpack()
			decoy := []byte{0x93, 0xc4, 1, 'x', 0xc4, 1, 'y', 0xc3}
			emit(tdCat([]byte{0x85}, tdKey(r, "Nonce"), decoy, tdKey(r, "Nonce"), nb, tdKey(r, "Location"), g.strAny(v.loc), tdKey(r, "UnsafeCaveats"), cb, tdKey(r, "Tail"), tg.bytesAny(v.tail, true)), "map/decoy-first")
			emit(tdCat([]byte{0x85}, tdKey(r, "Nonce"), nb, tdKey(r, "Location"), g.strAny(v.loc), tdKey(r, "UnsafeCaveats"), cb, tdKey(r, "Tail"), tg.bytesAny(v.tail, true), tdKey(r, "Nonce"), decoy), "map/decoy-last")
		}
	}
	c.set.Notes["token_forms"] = map[string]any{"cases": accepted + refused, "accepted": accepted, "refused": refused, "accepted_v0": v0, "accepted_v1": v1, "with_c3": proofs, "nil_keeps_ifs_pointer": pz}
}
