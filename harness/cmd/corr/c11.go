//go:build verif

package main

import (
	"bytes"
	"context"
	"encoding/json"
	"fmt"
	"github.com/superfly/macaroon/auth"
	"math"
	"math/big"
	"os"
	"os/exec"
	"runtime"
	"runtime/debug"
	"strings"
	"time"

	"github.com/superfly/macaroon"
	"github.com/superfly/macaroon/bundle"
	"github.com/superfly/macaroon/flyio"
	"github.com/superfly/macaroon/resset"
	msgpack "github.com/vmihailenco/msgpack/v5"

	"verifharness/internal/coqw"
	"verifharness/internal/cs"
	"verifharness/internal/m"
	"verifharness/internal/rng"
)

func init() {
	props["C11"] = genC11
	props["C12"] = genC12
}

var uintEdges = []uint64{0, 1, 127, 128, 255, 256, 65535, 65536, 1<<32 - 1, 1 << 32, 1<<63 - 1, 1 << 63, math.MaxUint64}

func edgeStr(r *rng.R) string {
	n := rng.Pick(r, []int{0, 1, 5, 31, 32, 33, 255, 256})
	// (the str16/str32 boundary at 65535/65536 is covered by the theorems; case files stay small)
	b := make([]byte, n)
	for i := range b {
		b[i] = byte('a' + r.Intn(26))
	}
	return string(b)
}

// edgeCav: caveats whose fields sit on encoding boundaries
func edgeCav(r *rng.R, depth int) m.Cav {
	now := m.T{Sec: 1700000000}
	switch r.Intn(16) {
	case 0:
		return m.Cav{Kind: "COrganization", ID: rng.Pick(r, uintEdges), Mask: uint64(rng.Pick(r, []uint16{0, 1, 31, 127, 128, 255, 256, 0xffff}))}
	case 1:
		n := rng.Pick(r, []int{0, 1, 15, 16, 17})
		seen := map[uint64]bool{}
		var e []m.EntN
		for len(e) < n {
			k := rng.Pick(r, uintEdges)
			if r.Bool() {
				k = uint64(r.Intn(1000))
			}
			if !seen[k] {
				seen[k] = true
				e = append(e, m.EntN{K: k, M: uint16(r.U64())})
			}
		}
		return m.Cav{Kind: "CApps", RSN: e}
	case 2:
		n := rng.Pick(r, []int{0, 1, 2, 15, 16})
		seen := map[string]bool{}
		var e []m.EntS
		for len(e) < n {
			k := edgeStr(r)
			if len(k) > 300 {
				k = k[:300]
			}
			if !seen[k] {
				seen[k] = true
				e = append(e, m.EntS{K: k, M: uint16(r.U64())})
			}
		}
		return m.Cav{Kind: rng.Pick(r, []string{"CVolumes", "CMachines", "CFeatureSet", "CClusters", "CStorageObjects", "CAppFeatureSet", "CMachineFeatureSet"}), RSS: e}
	case 3:
		return m.Cav{Kind: "CValidityWindow", NB: rng.Pick(r, int64Edges), NA: rng.Pick(r, []int64{-33, -32, -129, -128, -32769, -32768, -2147483649, -2147483648, 127, 128, math.MaxInt64, math.MinInt64})}
	case 4:
		var ss []string
		for i := rng.Pick(r, []int{0, 1, 15, 16}); i > 0; i-- {
			ss = append(ss, edgeStr(r))
		}
		if r.P(1, 5) {
			return m.Cav{Kind: "CMutations"}
		}
		return m.Cav{Kind: "CMutations", Strs: &ss}
	case 5:
		return m.Cav{Kind: rng.Pick(r, []string{"CConfineUser", "CConfineOrganization", "CIsUser", "CConfineGitHubOrg", "CMaxValidity", "CFlyioUserID", "CGitHubUserID", "CGoogleUserID"}), ID: rng.Pick(r, uintEdges)}
	case 6:
		b1, b2 := r.Bytes(rng.Pick(r, []int{0, 1, 32, 255, 256})), r.Bytes(rng.Pick(r, []int{0, 1, 60}))
		c := m.Cav{Kind: "C3P", S: [3]string{edgeStr(r)}, B1: &b1, B2: &b2}
		if r.P(1, 5) {
			c.B1 = nil
		}
		return c
	case 7:
		b := r.Bytes(rng.Pick(r, []int{0, 1, 16, 255, 256}))
		if r.P(1, 5) {
			return m.Cav{Kind: "CBind"}
		}
		return m.Cav{Kind: "CBind", B1: &b}
	case 8:
		c := m.Cav{Kind: "CIfPresent", Mask: uint64(uint16(r.U64()))}
		if depth > 0 && !r.P(1, 6) {
			var ifs []m.Cav
			for i := rng.Pick(r, []int{0, 1, 2, 7, 8}); i > 0; i-- {
				ifs = append(ifs, edgeCav(r, depth-1))
			}
			c.Ifs = &ifs
		}
		return c
	case 9:
		return m.Cav{Kind: rng.Pick(r, []string{"CFromMachine", "CConfineGoogleHD"}), S: [3]string{edgeStr(r)}}
	case 10:
		return m.Cav{Kind: rng.Pick(r, []string{"CAction", "CAllowedRoles"}), Mask: rng.Pick(r, []uint64{0, 1, 127, 128, 255, 256, 65535})}
	case 11:
		return m.Cav{Kind: "CIsMember"}
	case 12:
		if r.P(1, 6) {
			return m.Cav{Kind: "CCommands"}
		}
		var cmds []m.Cmd
		for i := rng.Pick(r, []int{0, 1, 2, 16}); i > 0; i-- {
			cmds = append(cmds, m.Cmd{Args: randStrs(r, uCmdArg, 3), Exact: r.Bool()})
		}
		return m.Cav{Kind: "CCommands", Cmds: &cmds}
	case 13:
		return m.Cav{Kind: "CFlySrc", S: [3]string{edgeStr(r), rng.Pick(r, uStr), edgeStr(r)}}
	case 14:
		return m.Cav{Kind: "CUnregistered", ID: rng.Pick(r, []uint64{200, 1 << 16, 1 << 33, 1 << 50, math.MaxUint64 - 5}), Body: randMsgpack(r, 3)}
	}
	return randCav(r, depth, now)
}

// mpExoticKeys lets randMsgpack use map keys that Go cannot hash (bin, array) or that are unusual (int, nil);
// only the hostile stream turns it on (an unregistered caveat with such a body is refused at decode time)
var mpExoticKeys bool

// randMsgpack: one well-formed msgpack value (any family, including non-canonical widths)
func randMsgpack(r *rng.R, depth int) []byte {
	be := func(n uint64, k int) []byte {
		b := make([]byte, k)
		for i := k - 1; i >= 0; i-- {
			b[i] = byte(n)
			n >>= 8
		}
		return b
	}
	k := r.Intn(16)
	if depth <= 0 && k >= 12 {
		k = r.Intn(12)
	}
	switch k {
	case 0:
		return []byte{byte(r.Intn(128))}
	case 1:
		return []byte{0xc0}
	case 2:
		return []byte{byte(0xc2 + r.Intn(2))}
	case 3:
		return append([]byte{0xcc}, r.Bytes(1)...)
	case 4:
		w := rng.Pick(r, []int{2, 4, 8})
		return append([]byte{map[int]byte{2: 0xcd, 4: 0xce, 8: 0xcf}[w]}, r.Bytes(w)...)
	case 5:
		w := rng.Pick(r, []int{1, 2, 4, 8})
		return append([]byte{map[int]byte{1: 0xd0, 2: 0xd1, 4: 0xd2, 8: 0xd3}[w]}, r.Bytes(w)...)
	case 6:
		return []byte{byte(0xe0 + r.Intn(32))}
	case 7:
		n := r.Intn(32)
		return append([]byte{byte(0xa0 + n)}, bytes.Repeat([]byte{'s'}, n)...)
	case 8:
		n := r.Intn(300)
		return append(append([]byte{0xda}, be(uint64(n), 2)...), bytes.Repeat([]byte{'t'}, n)...)
	case 9:
		n := r.Intn(40)
		return append([]byte{0xc4, byte(n)}, r.Bytes(n)...)
	case 10:
		w := rng.Pick(r, []int{4, 8})
		return append([]byte{map[int]byte{4: 0xca, 8: 0xcb}[w]}, r.Bytes(w)...)
	case 11:
		return append([]byte{0xd6, 0xff}, r.Bytes(4)...) // timestamp ext
	case 12, 13:
		n := r.Intn(4)
		b := []byte{byte(0x90 + n)}
		if r.P(1, 5) {
			b = append([]byte{0xdc}, be(uint64(n), 2)...)
		}
		for i := 0; i < n; i++ {
			b = append(b, randMsgpack(r, depth-1)...)
		}
		return b
	default:
		n := r.Intn(3)
		b := []byte{byte(0x80 + n)}
		for i := 0; i < n; i++ {
			var key []byte
			kk := 7
			if mpExoticKeys {
				kk = r.Intn(8)
			}
			switch kk {
			case 0:
				key = []byte{0xc4, 0x02, 'a', byte('b' + i)} // bin key
			case 1:
				key = []byte{byte(i + 1)} // integer key
			case 2:
				key = []byte{0x91, byte(i)} // array key
			case 3:
				key = []byte{0xc0} // nil key
			default:
				key = []byte{0xa1, byte('a' + i)}
			}
			b = append(b, append(key, randMsgpack(r, depth-1)...)...)
		}
		return b
	}
}

func encOne(c macaroon.Caveat) ([]byte, error) { return macaroon.NewCaveatSet(c).MarshalMsgpack() }

func obCoq(b *[]byte) string {
	if b == nil {
		return "None"
	}
	return "(Some " + coqw.Packed(*b) + ")"
}

// three user-defined caveat types at the bottom, the middle and the top of the user range (JSON writes such types as
// decimal numbers: every 64-bit number has to survive the round trip)
type hcBody struct {
	V uint64 `json:"v"`
}
type hcLow struct{ hcBody }
type hcMid struct{ hcBody }
type hcMax struct{ hcBody }

func (*hcLow) CaveatType() macaroon.CaveatType { return macaroon.CavMinUserDefined } // exactly the first user-defined number
func (*hcMid) CaveatType() macaroon.CaveatType { return 1<<63 + 7 }
func (*hcMax) CaveatType() macaroon.CaveatType { return macaroon.CavMaxUserDefined }
func (*hcLow) Name() string                    { return "HarnessLow" }
func (*hcMid) Name() string                    { return "HarnessMid" }
func (*hcMax) Name() string                    { return "HarnessMax" }
func (c *hcBody) Prohibits(macaroon.Access) error {
	if c.V == 0 {
		return nil
	}
	return fmt.Errorf("%w: harness caveat", macaroon.ErrUnauthorized)
}

var hcOnce bool

func genJSONTypes(c *ctx, st *cs.Stream) {
	if !hcOnce {
		hcOnce = true
		macaroon.RegisterCaveatType(&hcLow{})
		macaroon.RegisterCaveatType(&hcMid{})
		macaroon.RegisterCaveatType(&hcMax{})
	}
	r := c.r
	typeField := func(cav macaroon.Caveat) (string, bool) {
		js, err := json.Marshal(macaroon.NewCaveatSet(cav))
		var doc []struct {
			Type string `json:"type"`
		}
		if err != nil || json.Unmarshal(js, &doc) != nil || len(doc) != 1 {
			return "", false
		}
		return doc[0].Type, true
	}
	// writing: built-in types by name, user-defined ones by number
	one := resset.ActionRead
	for _, cav := range []macaroon.Caveat{&hcLow{hcBody{1}}, &hcMid{hcBody{2}}, &hcMax{hcBody{0}}, &flyio.Organization{ID: 1, Mask: resset.ActionRead}, &macaroon.ValidityWindow{NotBefore: 1, NotAfter: 2}, &one, &flyio.IsMember{}} {
		tf, ok := typeField(cav)
		oracle := ""
		if !ok {
			oracle = "JSON encoding of a registered caveat failed"
		} else {
			// and the whole round trip on the implementation: same type, same verdicts
			js, _ := json.Marshal(macaroon.NewCaveatSet(cav))
			back := macaroon.NewCaveatSet()
			if err := json.Unmarshal(js, back); err != nil || len(back.Caveats) != 1 {
				oracle = fmt.Sprintf("JSON round trip of a %s caveat fails: %v", cav.Name(), err)
			} else if back.Caveats[0].CaveatType() != cav.CaveatType() {
				oracle = fmt.Sprintf("JSON round trip turns caveat type %d (%s) into type %d (%T)", uint64(cav.CaveatType()), cav.Name(), uint64(back.Caveats[0].CaveatType()), back.Caveats[0])
			}
		}
		st.Add(&cs.Case{Coq: coqw.App("KJTypePrint", coqw.N(uint64(cav.CaveatType())), coqw.Str(tf)),
			Desc: map[string]any{"op": "JSON type field written", "caveat": cav.Name(), "type": uint64(cav.CaveatType()), "impl": tf}, Class: "json-type/print", Nontrivial: true, OracleFail: oracle})
	}
	// reading: names, numerals (boundaries, leading zeros, overflow), malformed numerals
	nums := []uint64{0, 4, 31, 32, 200, 1 << 16, 1 << 32, 1<<48 - 1, 1 << 48, 1<<48 + 7, 1<<63 - 1, 1 << 63, 1<<63 + 7, 1<<64 - 3, 1<<64 - 2, 1<<64 - 1}
	var strs []string
	for _, n := range nums {
		strs = append(strs, fmt.Sprint(n), "0"+fmt.Sprint(n), "000"+fmt.Sprint(n))
	}
	strs = append(strs, "DeprecatedOrganization", "DeprecatedApps", "NoAdminFeatures", "deprecatedorganization", "281474976710656", "281474976710655",
		"18446744073709551616", "18446744073709551617", "99999999999999999999999", "184467440737095516150", "-1", "+1", "1_0", "0x10", "1e3", " 1", "1 ", "", "१", "HarnessLow", "HarnessMid", "HarnessMax", "Organization", "ValidityWindow", "3P", "NoSuchType", "organization")
	n := 40
	if c.thorough {
		n = 2000
	}
	for i := 0; i < n; i++ {
		strs = append(strs, fmt.Sprint(r.U64()>>uint(r.Intn(64))))
	}
	for _, s := range strs {
		js, _ := json.Marshal([]map[string]any{{"type": s, "body": map[string]any{}}})
		set := macaroon.NewCaveatSet()
		body := "{}"
		if err := json.Unmarshal(js, set); err != nil || len(set.Caveats) != 1 {
			// a registered type whose body is not an object: retry with the bodies such types take
			for _, b := range []string{`"r"`, `0`, `""`, `[]`, `null`} {
				js = []byte(fmt.Sprintf(`[{"type":%q,"body":%s}]`, s, b))
				set = macaroon.NewCaveatSet()
				if json.Unmarshal(js, set) == nil && len(set.Caveats) == 1 {
					body = b
					break
				}
			}
		}
		if len(set.Caveats) != 1 || set.Caveats[0] == nil {
			continue
		}
		st.Add(&cs.Case{Coq: coqw.App("KJTypeRead", coqw.Str(s), coqw.N(uint64(set.Caveats[0].CaveatType()))),
			Desc: map[string]any{"op": "JSON type field read", "type_field": s, "body": body, "impl_type": uint64(set.Caveats[0].CaveatType())}, Class: "json-type/read", Nontrivial: true})
	}
}

// cloneOracle: CaveatSet.Clone hands out an independent set -- what is appended to (or changed in) the copy never shows in
// the original, for the empty set as for any other (caches and bundles rely on it to keep their copies apart)
func cloneOracle(sets []*macaroon.CaveatSet) string {
	for _, set := range sets {
		before, _ := set.MarshalMsgpack()
		cp, err := set.Clone()
		if err != nil {
			return "Clone fails: " + err.Error()
		}
		if cp == set {
			return fmt.Sprintf("Clone of a set with %d caveats returns the receiver itself", len(set.Caveats))
		}
		cp.Caveats = append(cp.Caveats, &macaroon.ValidityWindow{NotBefore: 1, NotAfter: 2})
		if len(cp.Caveats) > 1 {
			cp.Caveats[0] = &macaroon.ValidityWindow{NotBefore: 3, NotAfter: 4}
		}
		if after, _ := set.MarshalMsgpack(); !bytes.Equal(before, after) {
			return fmt.Sprintf("changing a Clone changed the original (%d caveats): %x -> %x", len(set.Caveats), before, after)
		}
	}
	return ""
}

// tokenCloneOracle: a Clone is the same token: it encodes to the bytes the original encodes to (whichever is encoded first,
// also for a proof token that has not been encoded yet) and is accepted wherever the original is
func tokenCloneOracle() string {
	key, ka := macaroon.NewSigningKey(), macaroon.NewEncryptionKey()
	for _, kind := range []string{"permission token", "fresh proof", "fresh proof with a caveat", "encoded proof", "fresh non-proof discharge"} {
		for _, cloneFirst := range []bool{true, false} {
			perm, _ := macaroon.New([]byte("k"), "https://perm.clone.test", key)
			perm.Add(&flyio.Organization{ID: 1, Mask: resset.ActionAll})
			perm.Add3P(ka, "https://tp.clone.test")
			ticket, _ := perm.ThirdPartyTicket("https://tp.clone.test")
			var m *macaroon.Macaroon
			switch kind {
			case "permission token":
				m = perm
			case "fresh non-proof discharge":
				_, m, _ = macaroon.VerifDischargeTicket(ka, "https://tp.clone.test", ticket, false)
			default:
				_, m, _ = macaroon.DischargeTicket(ka, "https://tp.clone.test", ticket)
				if kind == "fresh proof with a caveat" {
					m.Add(&macaroon.ValidityWindow{NotBefore: 0, NotAfter: 1 << 40})
				}
				if kind == "encoded proof" {
					m.Encode()
				}
			}
			var me, ce []byte
			var cp *macaroon.Macaroon
			var err error
			if cloneFirst {
				if cp, err = m.Clone(); err != nil {
					return "Clone of a " + kind + " fails: " + err.Error()
				}
				ce, _ = cp.Encode()
				me, _ = m.Encode()
			} else {
				me, _ = m.Encode()
				if cp, err = m.Clone(); err != nil {
					return "Clone of a " + kind + " fails: " + err.Error()
				}
				ce, _ = cp.Encode()
			}
			if !bytes.Equal(me, ce) {
				return fmt.Sprintf("a %s and its Clone encode differently (clone taken before the first Encode: %v): %x vs %x", kind, cloneFirst, me, ce)
			}
			if again, _ := cp.Encode(); !bytes.Equal(again, ce) {
				return "the Clone of a " + kind + " encodes differently the second time"
			}
			if kind != "permission token" {
				pe, _ := perm.Encode()
				pd, _ := macaroon.Decode(pe)
				if _, err := pd.Verify(key, [][]byte{ce}, nil); err != nil {
					return "the Clone of a " + kind + " (a genuine discharge) does not satisfy its third-party caveat: " + err.Error()
				}
			}
		}
	}
	return ""
}

// f8Oracle: a negative GoogleUserID has no wire form (it would come back as its absolute value): encoding must fail,
// alone, in a set, and on a token (finding F8)
func f8Oracle() string {
	for _, v := range []int64{-1, -5, -1 << 40} {
		g := (*auth.GoogleUserID)(big.NewInt(v))
		if _, err := macaroon.NewCaveatSet(g).MarshalMsgpack(); err == nil {
			return fmt.Sprintf("GoogleUserID(%d) encodes without error (decodes as %d)", v, -v)
		}
		m, _ := macaroon.New([]byte("k"), "https://loc.test", macaroon.NewSigningKey())
		m.UnsafeCaveats.Caveats = append(m.UnsafeCaveats.Caveats, g)
		if _, err := macaroon.VerifEncode(m); err == nil {
			return fmt.Sprintf("a token carrying GoogleUserID(%d) encodes without error", v)
		}
	}
	return ""
}

func genC11(c *ctx) {
	unregAnyType = false
	st := c.set.Stream("codec", "Corr.RunM", "run", 120)
	genJSONTypes(c, st)
	genTypedBodies(c, c.set.Stream("typed", "Corr.RunM", "run", 500))
	genTypedBodies2(c, c.set.Stream("typed2", "Corr.RunM", "run", 500))
	genTokenForms(c, c.set.Stream("token", "Corr.RunM", "run", 400))
	if f := f8Oracle(); f != "" {
		st.Add(&cs.Case{Coq: "(KSkip [] false 0%N)", Desc: map[string]any{"op": "encode negative GoogleUserID"}, Class: "corpus/F8", Nontrivial: true, OracleFail: f})
	}
	{
		rd := resset.ActionRead
		three := macaroon.NewCaveatSet(&flyio.Organization{ID: 1, Mask: resset.ActionAll}, &rd, &macaroon.ValidityWindow{NotBefore: 0, NotAfter: 9})
		dec, _ := macaroon.DecodeCaveats([]byte{0x90})
		if f := cloneOracle([]*macaroon.CaveatSet{macaroon.NewCaveatSet(), {}, dec, macaroon.NewCaveatSet(&rd), three}); f != "" {
			st.Add(&cs.Case{Coq: "(KSkip [] false 0%N)", Desc: map[string]any{"op": "CaveatSet.Clone independence"}, Class: "clone", Nontrivial: true, OracleFail: f})
		}
		if f := unrelatedActivityOracle(true); f != "" {
			st.Add(&cs.Case{Coq: "(KSkip [] false 0%N)", Desc: map[string]any{"op": "held encodings of several KiB while other tokens are encoded"}, Class: "held-bytes", Nontrivial: true, OracleFail: f})
		}
		if f := repeatedFieldReencodeOracle(); f != "" {
			st.Add(&cs.Case{Coq: "(KSkip [] false 0%N)", Desc: map[string]any{"op": "tokens sent as maps with repeated field names: verdict before and after re-encoding"}, Class: "repeated-fields", Nontrivial: true, OracleFail: f})
		}
		if f := staleNonceForgeryOracle(); f != "" {
			st.Add(&cs.Case{Coq: "(KSkip [] false 0%N)", Desc: map[string]any{"op": "old-format token, Nonce field twice"}, Class: "repeated-fields", Nontrivial: true, OracleFail: f})
		}
		if f := nilKeyIDOracle(); f != "" {
			st.Add(&cs.Case{Coq: "(KSkip [] false 0%N)", Desc: map[string]any{"op": "nil / empty key-id round trip"}, Class: "nil-kid", Nontrivial: true, OracleFail: f})
		}
		if f := callerSliceOracle(); f != "" {
			st.Add(&cs.Case{Coq: "(KSkip [] false 0%N)", Desc: map[string]any{"op": "NewCaveatSet and the caller's list"}, Class: "caller-slice", Nontrivial: true, OracleFail: f})
		}
		if f := tokenCloneOracle(); f != "" {
			st.Add(&cs.Case{Coq: "(KSkip [] false 0%N)", Desc: map[string]any{"op": "Macaroon.Clone encodes as the original"}, Class: "clone", Nontrivial: true, OracleFail: f})
		}
	}
	r := c.r
	n := 700
	if c.thorough {
		n = 20000
	}
	now := m.T{Sec: 1700000000}
	key := macaroon.NewSigningKey()
	for i := 0; i < n; i++ {
		var cv m.Cav
		if i%3 == 0 {
			cv = randCav(r, 2, now)
		} else {
			cv = edgeCav(r, 2)
		}
		gc := cv.Go()
		out, err := encOne(gc)
		cse := &cs.Case{Coq: coqw.App("KEnc", cv.Coq(), coqw.Bool(err == nil), coqw.Packed(out)),
			Desc: map[string]any{"op": "MarshalMsgpack", "caveat": cv.Kind, "impl_hex": fmt.Sprintf("%x", out[:imin(len(out), 64)]), "len": len(out)}, Class: "enc/" + cv.Kind, Nontrivial: true}
		// implementation-side oracles: deterministic; decode(encode) re-encodes to the same bytes; same value built in another insertion order encodes the same
		if err == nil {
			out2, _ := encOne(cv.Go())
			if !bytes.Equal(out, out2) {
				cse.OracleFail = "two encodings of the same value differ (map order?)"
			}
			set, derr := macaroon.DecodeCaveats(out)
			if derr != nil {
				cse.OracleFail = "canonical encoding does not decode: " + derr.Error()
			} else if re, rerr := set.MarshalMsgpack(); rerr != nil || !bytes.Equal(re, out) {
				cse.OracleFail = fmt.Sprintf("decode then re-encode changes the bytes (%v)", rerr)
			} else {
				// inspecting and clearing are read-only: the encoding (what a holder would sign next) must not move
				exerciseSet(set)
				if re, rerr := set.MarshalMsgpack(); rerr != nil || !bytes.Equal(re, out) {
					cse.OracleFail = fmt.Sprintf("reading a decoded caveat set (Validate / GetCaveats / scopes / JSON / Clone) changed its encoding: %x -> %x (%v)", out[:imin(len(out), 40)], re[:imin(len(re), 40)], rerr)
				}
			}
		}
		st.Add(cse)
		// JSON round trip
		if i%2 == 0 {
			js, jerr := json.Marshal(macaroon.NewCaveatSet(gc))
			ok := jerr == nil
			var back []byte
			if ok {
				set := macaroon.NewCaveatSet()
				if uerr := json.Unmarshal(js, set); uerr != nil || len(set.Caveats) != 1 {
					ok = false
				} else if back, err = encOne(set.Caveats[0]); err != nil {
					ok = false
				}
			}
			jc := &cs.Case{Coq: coqw.App("KJson", cv.Coq(), coqw.Bool(ok), coqw.Packed(back)),
				Desc: map[string]any{"op": "JSON round trip", "caveat": cv.Kind, "json": string(js[:imin(len(js), 300)]), "ok": ok}, Class: "json/" + cv.Kind, Nontrivial: ok}
			st.Add(jc)
		}
	}
	// whole sets and tokens
	ns := 150
	if c.thorough {
		ns = 4000
	}
	for i := 0; i < ns; i++ {
		var set []m.Cav
		for k := rng.Pick(r, []int{0, 1, 3, 7, 8, 9, 0, 1, 3, 7, 8, 9, 0, 1, 3, 7, 8, 9, 64, 65}); k > 0; k-- {
			set = append(set, edgeCav(r, 1))
		}
		gs := macaroon.NewCaveatSet(m.CavsGo(set)...)
		out, err := gs.MarshalMsgpack()
		st.Add(&cs.Case{Coq: coqw.App("KEncSet", m.CavsCoq(set), coqw.Bool(err == nil), coqw.Packed(out)),
			Desc: map[string]any{"op": "CaveatSet.MarshalMsgpack", "n": len(set), "len": len(out)}, Class: "encset", Nontrivial: len(set) > 0})
		if err != nil {
			continue
		}
		// frames: what the decoder sees = (type, body) per caveat, bodies byte-for-byte
		dec, derr := macaroon.DecodeCaveats(out)
		var frames []string
		if derr == nil {
			for _, cv := range dec.Caveats {
				body, _ := macaroon.VerifEncode(cv)
				frames = append(frames, coqw.Pair(coqw.N(uint64(cv.CaveatType())), coqw.Packed(body)))
			}
		}
		st.Add(&cs.Case{Coq: coqw.App("KFrames", coqw.Packed(out), coqw.Bool(derr == nil), coqw.List(frames)),
			Desc: map[string]any{"op": "DecodeCaveats frames", "n": len(set)}, Class: "frames", Nontrivial: len(set) > 0})
		// token
		ver := uint64(r.Intn(2))
		proof := ver == 1 && r.P(1, 4)
		kid, rnd, tail := r.Bytes(rng.Pick(r, []int{0, 3, 40})), r.Bytes(16), r.Bytes(32)
		tok := &macaroon.Macaroon{Nonce: macaroon.VerifNonce(kid, rnd, proof, int(ver)), Location: edgeStr(r), UnsafeCaveats: *gs, Tail: tail}
		tb, terr := macaroon.VerifEncode(tok)
		tcase := &cs.Case{Coq: coqw.App("KEncTok", obCoq(&kid), obCoq(&rnd), coqw.Bool(proof), coqw.N(ver), coqw.Str(tok.Location), m.CavsCoq(set), obCoq(&tail), coqw.Bool(terr == nil), coqw.Packed(tb)),
			Desc: map[string]any{"op": "encode token", "ncav": len(set), "len": len(tb), "nonce_version": ver}, Class: "enctok", Nontrivial: true}
		// oracle: decoding the wire token and re-encoding it reproduces the bytes (both nonce formats), and the nonce re-encodes to its own bytes
		if terr == nil {
			if dm, derr := macaroon.Decode(tb); derr != nil {
				tcase.OracleFail = "encoded token does not decode: " + derr.Error()
			} else if re, rerr := macaroon.VerifEncode(dm); rerr != nil || !bytes.Equal(re, tb) {
				tcase.OracleFail = fmt.Sprintf("decode then re-encode of a version-%d-nonce token changes the bytes", ver)
			} else if nb := dm.Nonce.MustEncode(); !bytes.Equal(nb, tok.Nonce.MustEncode()) {
				tcase.OracleFail = fmt.Sprintf("decoded nonce re-encodes differently (version %d)", ver)
			} else {
				// the nonce's JSON form (msgpack bytes as a JSON string) round-trips to the same nonce, both versions
				var back macaroon.Nonce
				if js, jerr := json.Marshal(dm.Nonce); jerr != nil {
					tcase.OracleFail = "nonce does not marshal to JSON: " + jerr.Error()
				} else if uerr := json.Unmarshal(js, &back); uerr != nil {
					tcase.OracleFail = "nonce JSON does not unmarshal: " + uerr.Error()
				} else if !bytes.Equal(back.MustEncode(), dm.Nonce.MustEncode()) || back.UUID() != dm.Nonce.UUID() {
					tcase.OracleFail = fmt.Sprintf("nonce changes in a JSON round trip (version %d)", ver)
				}
			}
		}
		st.Add(tcase)
	}
	// Skip on well-formed and damaged msgpack values
	nk := 400
	if c.thorough {
		nk = 12000
	}
	for i := 0; i < nk; i++ {
		b := randMsgpack(r, 3)
		switch r.Intn(5) {
		case 0:
			if len(b) > 1 {
				b = b[:r.Intn(len(b))] // truncated
			}
		case 1:
			b[r.Intn(len(b))] = byte(r.U64())
		case 2:
			b = append(b, r.Bytes(r.Intn(4))...) // trailing bytes
		}
		rd := bytes.NewReader(b)
		dec := msgpack.NewDecoder(rd)
		err := safeSkip(dec)
		consumed := len(b) - rd.Len()
		st.Add(&cs.Case{Coq: coqw.App("KSkip", coqw.Packed(b), coqw.Bool(err == nil), coqw.N(uint64(consumed))),
			Desc: map[string]any{"op": "msgpack Skip", "hex": fmt.Sprintf("%x", b[:imin(len(b), 80)]), "ok": err == nil, "consumed": consumed}, Class: "skip", Nontrivial: err == nil})
	}
	// non-canonical encodings of valid tokens: same decoded value, same canonical re-encoding, same verdict (oracle only)
	nv := 200
	if c.thorough {
		nv = 5000
	}
	bad := ""
	for i := 0; i < nv; i++ {
		mm, _ := macaroon.New([]byte("kid"), "https://loc.test", key)
		for k := 1 + r.Intn(3); k > 0; k-- {
			mm.Add(edgeCav(r, 1).Go())
		}
		canon, err := mm.Encode()
		if err != nil {
			continue
		}
		cm, _ := macaroon.Decode(canon)
		_, canonErr := cm.Verify(key, nil, nil)
		variants := [][]byte{}
		if v, err := msgpack.Marshal(mm); err == nil { // map-encoded structs, full-width ints
			variants = append(variants, v)
		}
		var buf bytes.Buffer
		enc := msgpack.NewEncoder(&buf)
		enc.UseArrayEncodedStructs(true)
		enc.UseCompactInts(false)
		if enc.Encode(mm) == nil {
			variants = append(variants, buf.Bytes())
		}
		variants = append(variants, append(append([]byte{}, canon...), r.Bytes(1+r.Intn(5))...))
		for vi, v := range variants {
			dm, err := macaroon.Decode(v)
			if err != nil {
				continue // refusing a variant is fine
			}
			if _, verr := dm.Verify(key, nil, nil); (verr == nil) != (canonErr == nil) && bad == "" {
				bad = fmt.Sprintf("variant %d of a token decodes but verifies differently from the canonical form: %v vs %v", vi, verr, canonErr)
			}
			if re, rerr := dm.Encode(); (rerr != nil || !bytes.Equal(re, canon)) && bad == "" {
				bad = fmt.Sprintf("variant %d re-encodes to different bytes than the canonical form", vi)
			}
		}
	}
	c.set.Notes["noncanonical_variants"] = map[string]any{"tokens": nv, "violation": bad}
	if bad != "" {
		st.Add(&cs.Case{Coq: "(KSkip [] false 0%N)", Desc: map[string]any{"op": "non-canonical variants"}, Class: "noncanon", OracleFail: bad})
	}
}

func safeSkip(dec *msgpack.Decoder) (err error) {
	defer func() {
		if r := recover(); r != nil {
			err = fmt.Errorf("panic: %v", r)
		}
	}()
	return dec.Skip()
}

// ---------------------------------------------------------------- C12: untrusted bytes
type c12Result struct {
	panicked string
	alloc    uint64
}

func measure(f func()) (res c12Result) {
	var m1, m2 runtime.MemStats
	runtime.ReadMemStats(&m1)
	func() {
		defer func() {
			if r := recover(); r != nil {
				res.panicked = fmt.Sprintf("%v", r)
			}
		}()
		f()
	}()
	runtime.ReadMemStats(&m2)
	res.alloc = m2.TotalAlloc - m1.TotalAlloc
	return
}

// everything the library offers on a decoded caveat set
func exerciseSet(set *macaroon.CaveatSet) {
	if set == nil {
		return
	}
	one := uint64(1)
	set.Validate(&flyio.Access{OrgID: &one, Action: resset.ActionRead})
	// requests naming deeper resources, with commands shorter than / as long as / longer than what a caveat may list
	app, mach, feat := uint64(1), "m1", "wg"
	for _, cmd := range [][]string{{}, {"a"}, {"a", "b"}, {"a", "b", "c", "d"}} {
		set.Validate(&flyio.Access{OrgID: &one, AppID: &app, Machine: &mach, Command: cmd, Action: resset.ActionControl})
	}
	set.Validate(&flyio.Access{OrgID: &one, AppID: &app, Feature: &feat, Action: resset.ActionAll}, &flyio.Access{OrgID: &one, Action: resset.ActionNone})
	macaroon.GetCaveats[*macaroon.ValidityWindow](set)
	macaroon.GetCaveats[*macaroon.Caveat3P](set)
	flyio.OrganizationScope(set)
	flyio.AppScope(set)
	flyio.ClusterScope(set)
	flyio.AppsAllowing(set, resset.ActionRead)
	flyio.DangerousUserID(set)
	set.MarshalMsgpack()
	json.Marshal(set)
	set.Clone()
}

func exerciseToken(b []byte) {
	mm, err := macaroon.Decode(b)
	if err != nil {
		macaroon.TicketsForThirdParty(b, "https://tp.test")
		macaroon.ThirdPartyTicket(b, "https://tp.test")
		return
	}
	exerciseSet(&mm.UnsafeCaveats)
	mm.Expiration()
	mm.AllThirdPartyTickets()
	mm.ThirdPartyTickets()
	mm.Verify(macaroon.NewSigningKey(), [][]byte{b}, nil)
	mm.Add(&macaroon.ValidityWindow{NotBefore: 1, NotAfter: 2})
	mm.Add3P(macaroon.NewEncryptionKey(), "https://tp.test")
	// the other ways a third-party caveat reaches Add (the verifier key is sealed under the decoded, untrusted tail)
	if m2, err := macaroon.Decode(b); err == nil {
		if c3, err := macaroon.NewCaveat3P(macaroon.NewEncryptionKey(), "https://tp2.test"); err == nil {
			m2.Add(c3, &macaroon.ValidityWindow{NotBefore: 1, NotAfter: 2})
		}
	}
	if m3, err := macaroon.Decode(b); err == nil {
		m3.Add(&macaroon.Caveat3P{Location: "https://tp3.test", Ticket: []byte{1, 2, 3}})
	}
	// every sealed blob the wire controls reaches unseal: the verifier key (a discharge candidate for the caveat's ticket is
	// presented), the ticket at the third party, the discharge's key-id when its location is trusted
	for _, c3 := range macaroon.GetCaveats[*macaroon.Caveat3P](&mm.UnsafeCaveats) {
		if d, err := macaroon.New(c3.Ticket, c3.Location, macaroon.NewSigningKey()); err == nil {
			if db, err := d.Encode(); err == nil {
				mm.Verify(macaroon.NewSigningKey(), [][]byte{db}, map[string][]macaroon.EncryptionKey{c3.Location: {macaroon.NewEncryptionKey()}})
			}
		}
		macaroon.DischargeTicket(macaroon.NewEncryptionKey(), c3.Location, c3.Ticket)
	}
	macaroon.DischargeTicket(macaroon.NewEncryptionKey(), mm.Location, mm.Nonce.KID)
	macaroon.TicketsForThirdParty(b, "https://tp.test")
	macaroon.ThirdPartyTicket(b, "https://tp.test")
	mm.Encode()
	mm.String()
	mm.Clone()
	macaroon.DecodeNonce(b)
}

var (
	exKey      = macaroon.NewSigningKey()
	exResolver = bundle.WithKeys(map[string]macaroon.SigningKey{"": exKey, "\x00": exKey, "k": exKey}, map[string][]macaroon.EncryptionKey{"https://tp.test": {macaroon.NewEncryptionKey()}})
	exCache    = bundle.NewVerificationCache(exResolver, time.Minute, 8)
)

func exerciseHeader(h string) {
	if toks, err := macaroon.Parse(h); err == nil {
		pm, _, dm, _, _ := macaroon.FindPermissionAndDischargeTokens(toks, "https://loc.test")
		for _, mm := range append(append([]*macaroon.Macaroon{}, pm...), dm...) {
			_ = mm.Nonce.UUID()
			mm.Expiration()
			mm.AllThirdPartyTickets()
		}
		for _, p := range pm {
			p.VerifyParsed(macaroon.NewSigningKey(), dm, nil)
		}
	}
	macaroon.Parse(h)
	macaroon.ParsePermissionAndDischargeTokens(h, "https://loc.test")
	b, _ := bundle.ParseBundle("https://loc.test", h)
	if b != nil {
		b.Header()
		b.UndischargedThirdPartyTickets()
		// counting with filters that look at the whole list, then printing, copying and verifying the same bundle
		cb := b.Clone()
		cb.Count(cb.IsMissingDischarge("https://tp.test"))
		cb.Any(cb.WithDischarges(bundle.KeepAll))
		cb.Count(bundle.LocationFilter("https://loc.test"))
		cb.Any(cb.IsMissingDischarge("https://tp4.test"))
		cb.Header()
		_ = cb.String()
		cb.Select(bundle.KeepAll).Header()
		cb.Clone().Verify(context.Background(), exResolver)
		cb.Verify(context.Background(), exResolver)
		cb.Len()
		// verifying: with a resolver that knows none of the key-ids, one that knows the short ones, and through a cache
		b.Clone().Verify(context.Background(), bundle.WithKey([]byte("a key-id no token has"), exKey, nil))
		b.Clone().Verify(context.Background(), exResolver)
		vb := b.Clone()
		vb.Verify(context.Background(), exCache)
		vb.Verify(context.Background(), exCache)
		vb.Validate(&flyio.Access{})
		vb.Error()
		b.Attenuate(&macaroon.ValidityWindow{NotBefore: 1, NotAfter: 2})
		if c3, err := macaroon.NewCaveat3P(macaroon.NewEncryptionKey(), "https://tp4.test"); err == nil {
			b.Clone().Attenuate(c3)
		}
		one := uint64(1)
		b.Validate(&flyio.Access{OrgID: &one})
		b.Clone()
	}
}

func genC12(c *ctx) {
	unregAnyType = false
	st := c.set.Stream("malformed", "Corr.RunM", "run", 400)
	// inputs announcing huge lengths are first decoded in a child process under an address-space limit: if the child dies
	// the allocation is wire-driven (finding F4) and this process does not repeat it
	for _, in := range [][]byte{{0xdd, 0x0f, 0xff, 0xff, 0xfe}, {0x92, 0x03, 0x91, 0xdf, 0x7f, 0xff, 0xff, 0xff}, {0xdd, 0x7f, 0xff, 0xff, 0xfe}} {
		cmd := exec.Command("/bin/sh", "-c", fmt.Sprintf("ulimit -v 3000000; exec %s -decode-hex %x", os.Args[0], in))
		if out, err := cmd.CombinedOutput(); err != nil {
			tail := string(out)
			if len(tail) > 300 {
				tail = tail[:300]
			}
			st.Add(&cs.Case{Coq: "(KSkip [] false 0%N)", Desc: map[string]any{"kind": "length-prefix", "hex": fmt.Sprintf("%x", in)}, Class: "malformed/length-prefix", Nontrivial: true,
				OracleFail: fmt.Sprintf("decoding the %d-byte input %x in a child process limited to 3 GB of address space fails (%v): %s", len(in), in, err, tail)})
			c.set.Notes["length_prefix_child"] = "failed: the in-process fuzz is skipped"
			return
		}
	}
	// scale: a length prefix that lies, in front of MANY well-formed caveats (more than any internal pre-size): decoding may
	// allocate for what is there, never for what is announced; also honest large sets, nested in a conditional, and as a token
	for _, count := range []int{63, 64, 65, 66, 130, 300} {
		var body []byte
		for i := 0; i < count; i++ {
			body = append(body, 0x08, 0x91)
			body = append(body, mpUint(uint64(i))...)
		}
		for _, announce := range []uint32{uint32(2 * count), 1 << 16, 1 << 20, 1 << 22} {
			in := append([]byte{0xdd, byte(announce >> 24), byte(announce >> 16), byte(announce >> 8), byte(announce)}, body...)
			for _, nested := range []bool{false, true} {
				input := in
				if nested {
					input = append(append([]byte{0x92, 0x0d, 0x92}, in...), 0x00)
				}
				runtime.GC()
				runtime.GC()
				dres := measure(func() {
					macaroon.DecodeCaveats(input)
					macaroon.Decode(input)
				})
				dbound := uint64(64*len(input)) + 8<<20
				f := ""
				if dres.panicked != "" {
					f = "panic: " + dres.panicked
				} else if dres.alloc > dbound {
					f = fmt.Sprintf("decoding a %d-byte input (array header announcing %d elements in front of %d well-formed caveats, nested in a conditional: %v) allocated %d bytes (bound %d)", len(input), announce, count, nested, dres.alloc, dbound)
				}
				st.Add(&cs.Case{Coq: "(KSkip [] false 0%N)", Desc: map[string]any{"kind": "lying-length-many-caveats", "announced": announce, "caveats": count, "nested": nested, "decode_alloc": dres.alloc}, Class: "malformed/lying-length-many-caveats", Nontrivial: true, OracleFail: f})
			}
		}
	}
	r := c.r
	debug.SetGCPercent(100)
	n := 3000
	if c.thorough {
		n = 120000
	}
	key := macaroon.NewSigningKey()
	worst := uint64(0)
	worstIn := ""
	panics := 0
	remeasured := 0
	for i := 0; i < n; i++ {
		// a structurally valid token whose fields are then damaged
		mm, _ := macaroon.New(r.Bytes(r.Intn(4)), "https://loc.test", key)
		for k := r.Intn(4); k > 0; k-- {
			// the honest attenuation that builds the base token runs under recover() too: the library must not crash here either
			cv := edgeCavSmall(r)
			if res := measure(func() { mm.Add(cv.Go()) }); res.panicked != "" {
				panics++
				st.Add(&cs.Case{Coq: "(KSkip [] false 0%N)", Desc: map[string]any{"kind": "attenuate", "caveat": cv.Coq()}, Class: "malformed/attenuate", Nontrivial: true,
					OracleFail: "panic while adding the caveat " + cv.Coq() + " to a token: " + res.panicked})
			}
		}
		wire, _ := mm.Encode()
		var input []byte
		kind := ""
		switch r.Intn(13) {
		case 11: // third-party caveats whose sealed fields are shorter than an AEAD nonce / tag, or empty
			sm, _ := macaroon.New(r.Bytes(r.Intn(4)), "https://loc.test", key)
			vk, tk := r.Bytes(rng.Pick(r, []int{0, 1, 11, 12, 13, 27, 28, 29})), r.Bytes(rng.Pick(r, []int{0, 1, 11, 12, 13, 27, 28, 29}))
			sm.UnsafeCaveats.Caveats = append(sm.UnsafeCaveats.Caveats, &macaroon.Caveat3P{Location: "https://tp.test", VerifierKey: vk, Ticket: tk})
			input, _ = sm.Encode()
			kind = "short-sealed-blob"
		case 12: // command lists of every shape against requests with shorter / longer / empty commands
			var cmds flyio.Commands
			for k := r.Intn(3); k >= 0; k-- {
				var args []string
				for q := 1 + r.Intn(3); q > 0; q-- {
					args = append(args, rng.Pick(r, []string{"a", "b", "c"}))
				}
				cmds = append(cmds, flyio.Command{Args: args, Exact: r.Bool()})
			}
			cm, _ := macaroon.New(r.Bytes(2), "https://loc.test", key)
			cm.Add(&flyio.Organization{ID: 1, Mask: resset.ActionAll}, &cmds)
			input, _ = cm.Encode()
			kind = "commands"
		case 9: // a well-formed token whose tail has the wrong size (the tail keys the seal of every third-party caveat added next)
			n := rng.Pick(r, []int{0, 1, 16, 31, 33, 64})
			input = append(append(append([]byte{}, wire[:len(wire)-34]...), 0xc4, byte(n)), r.Bytes(n)...)
			kind = "off-size-tail"
		case 0: // byte mutation
			input = append([]byte{}, wire...)
			for k := 1 + r.Intn(3); k > 0; k-- {
				input[r.Intn(len(input))] = byte(r.U64())
			}
			kind = "mutate"
		case 1: // nil in place of a field
			input = append([]byte{}, wire...)
			input[r.Intn(len(input))] = 0xc0
			kind = "nil-field"
		case 2: // oversized length prefixes
			input = append([]byte{}, wire...)
			p := r.Intn(len(input))
			input = append(append(append([]byte{}, input[:p]...), rng.Pick(r, [][]byte{{0xdd, 0xff, 0xff, 0xff, 0xfe}, {0xdf, 0x7f, 0xff, 0xff, 0xff}, {0xc6, 0xff, 0xff, 0xff, 0xff}, {0xdb, 0xff, 0xff, 0xff, 0xf0}, {0xdc, 0xff, 0xff}})...), input[p:]...)
			kind = "oversized-length"
		case 3: // deep nesting
			d := 1 + r.Intn(2000)
			input = append(bytes.Repeat([]byte{0x91}, d), 0x01)
			if r.Bool() {
				input = append([]byte{0x92, 0xcc, 0xc8}, input...) // as an unregistered caveat body
			}
			kind = "deep-nesting"
		case 4: // caveat set with unknown types and arbitrary bodies
			mpExoticKeys = true
			input = []byte{0x94}
			input = append(input, mpUint(uint64(200+r.Intn(3)))...)
			input = append(input, randMsgpack(r, 4)...)
			input = append(input, mpUint(uint64(r.Intn(32)))...)
			input = append(input, randMsgpack(r, 3)...)
			mpExoticKeys = false
			kind = "unknown-and-mistyped"
		case 5: // truncation
			input = wire[:r.Intn(len(wire))]
			kind = "truncated"
		case 6: // random bytes
			input = r.Bytes(r.Intn(64))
			kind = "random"
		case 7: // the recorded crashers
			input = rng.Pick(r, [][]byte{{0x92, 0x0d, 0x92, 0xc0, 0x00}, {0x92, 0xcc, 0xc8, 0x81, 0x91, 0x01, 0x01}, {0xdd, 0x0f, 0xff, 0xff, 0xfe}, {0x92, 0xcc, 0xc8, 0xc0}})
			kind = "corpus"
		case 8: // a registered map- or slice-typed caveat whose length prefix announces far more entries than follow
			ty := rng.Pick(r, []byte{2, 3, 5, 6, 7, 14, 16, 27, 28, 29, 12, 19, 25, 11, 15})
			hdr := rng.Pick(r, [][]byte{{0xdf, 0x00, 0x10, 0x00, 0x00}, {0xdf, 0x7f, 0xff, 0xff, 0xff}, {0xde, 0xff, 0xff}, {0xdd, 0x00, 0x20, 0x00, 0x00}, {0xdc, 0xff, 0xff}})
			input = append([]byte{0x92, ty, 0x91}, hdr...)
			if ty == 27 {
				input = append([]byte{0x92, ty}, hdr...)
			}
			switch ty {
			case 12, 19, 25: // the body IS a byte string / string: a bin32 / str32 header announcing far more than follows
				input = append([]byte{0x92, ty}, rng.Pick(r, [][]byte{{0xc6, 0x10, 0x00, 0x00, 0x00}, {0xc6, 0x7f, 0xff, 0xff, 0xff}, {0xdb, 0x10, 0x00, 0x00, 0x00}, {0xc5, 0xff, 0xff}})...)
			case 11, 15: // a struct with string / bytes fields
				input = append([]byte{0x92, ty, 0x93}, rng.Pick(r, [][]byte{{0xdb, 0x10, 0x00, 0x00, 0x00}, {0xc6, 0x10, 0x00, 0x00, 0x00}})...)
			}
			if r.Bool() { // nested in a conditional caveat
				input = append(append([]byte{0x92, 0x0d, 0x92}, input...), 0x00)
			}
			kind = "typed-oversized-length"
		default: // mistyped field: splice a random msgpack value over a field
			input = append([]byte{}, wire...)
			p := r.Intn(len(input))
			input = append(append(append([]byte{}, input[:p]...), randMsgpack(r, 2)...), input[imin(p+1+r.Intn(3), len(input)):]...)
			kind = "mistyped"
		}
		in := input
		// decoding alone (where wire lengths can drive pre-allocation) gets a tight bound
		dres := measure(func() {
			macaroon.Decode(in)
			macaroon.DecodeCaveats(in)
			macaroon.DecodeNonce(in)
		})
		res := measure(func() {
			exerciseToken(in)
			set, err := macaroon.DecodeCaveats(in)
			if err == nil {
				exerciseSet(set)
			}
			macaroon.DecodeNonce(in)
			exerciseHeader(macaroon.ToAuthorizationHeader(in))
		})
		bound := uint64(256*len(input)) + 64<<20
		fail := ""
		dbound := uint64(64*len(input)) + 8<<20
		if dres.alloc > dbound || res.alloc > bound {
			// The msgpack dependency keeps its read buffer in a sync.Pool'ed decoder: after a hostile length prefix the
			// retained buffer grows by ~1.3 MB per further hostile call until a GC empties the pool, so the allocation
			// of one call depends on the calls before it. The property speaks about one input; re-measure it from a
			// fresh pool (two GCs empty sync.Pool and its victim cache) and judge that.
			remeasured++
			runtime.GC()
			runtime.GC()
			dres = measure(func() {
				macaroon.Decode(in)
				macaroon.DecodeCaveats(in)
				macaroon.DecodeNonce(in)
			})
			runtime.GC()
			runtime.GC()
			res2 := measure(func() {
				exerciseToken(in)
				set, err := macaroon.DecodeCaveats(in)
				if err == nil {
					exerciseSet(set)
				}
				macaroon.DecodeNonce(in)
				exerciseHeader(macaroon.ToAuthorizationHeader(in))
			})
			if res2.panicked == "" {
				res = res2
			}
		}
		if dres.panicked != "" {
			fail = "panic while decoding: " + dres.panicked
			panics++
		} else if dres.alloc > dbound {
			fail = fmt.Sprintf("decoding allocated %d bytes for a %d-byte input (bound %d)", dres.alloc, len(input), dbound)
		} else if res.panicked != "" {
			fail = "panic: " + res.panicked
			panics++
		} else if res.alloc > bound {
			fail = fmt.Sprintf("allocated %d bytes for a %d-byte input (bound %d)", res.alloc, len(input), bound)
		}
		if res.alloc > worst {
			worst, worstIn = res.alloc, fmt.Sprintf("%x", input[:imin(len(input), 40)])
		}
		// model side: Skip over the input agrees with the library (exactness of the parser model on hostile input)
		rd := bytes.NewReader(input)
		dec := msgpack.NewDecoder(rd)
		err := safeSkip(dec)
		consumed := len(input) - rd.Len()
		if kind == "deep-nesting" && len(input) > 600 {
			// keep the Coq evaluation cheap: very deep inputs are exercised on the implementation only
			if fail != "" {
				st.Add(&cs.Case{Coq: "(KSkip [] false 0%N)", Desc: map[string]any{"kind": kind, "hex": fmt.Sprintf("%x", input[:40])}, Class: "malformed/" + kind, OracleFail: fail})
			}
			continue
		}
		hexLen := 80
		if fail != "" {
			hexLen = 4096 // a failing input is recorded in full so that the replay is self-contained
		}
		st.Add(&cs.Case{Coq: coqw.App("KSkip", coqw.Packed(input), coqw.Bool(err == nil), coqw.N(uint64(consumed))),
			Desc: map[string]any{"kind": kind, "hex": fmt.Sprintf("%x", input[:imin(len(input), hexLen)]), "len": len(input), "alloc": res.alloc, "decode_alloc": dres.alloc}, Class: "malformed/" + kind, Nontrivial: true, OracleFail: fail})
		// the same input as a caveat set: whatever the library accepts, the frame-level model accepts too, with the same frames
		if len(input) <= 400 && fail == "" {
			func() {
				defer func() { recover() }()
				dset, derr := macaroon.DecodeCaveats(input)
				var frames []string
				if derr == nil {
					for _, cv := range dset.Caveats {
						frames = append(frames, coqw.Pair(coqw.N(uint64(cv.CaveatType())), coqw.Packed(nil)))
					}
				}
				st.Add(&cs.Case{Coq: coqw.App("KFramesHostile", coqw.Packed(input), coqw.Bool(derr == nil), coqw.List(frames)),
					Desc: map[string]any{"kind": kind, "op": "DecodeCaveats on a damaged input", "hex": fmt.Sprintf("%x", input[:imin(len(input), 80)]), "impl_ok": derr == nil}, Class: "hostile-frames/" + kind, Nontrivial: derr == nil})
			}()
		}
	}
	// inputs that are malformed BY CONSTRUCTION must be refused (an error swallowed in a decoder turns them into acceptances):
	// every registered type with the body `true`; odd-length and truncated caveat arrays; JSON with a mistyped body
	// decoders are called through safe(): a crash on one of these inputs is reported with the input, not as a dead harness
	safe := func(what string, f func() error) (err error) {
		defer func() {
			if r := recover(); r != nil {
				st.Add(&cs.Case{Coq: "(KSkip [] false 0%N)", Desc: map[string]any{"kind": "must-reject", "what": what}, Class: "malformed/must-reject", Nontrivial: true,
					OracleFail: fmt.Sprintf("panic on %s: %v", what, r)})
				err = fmt.Errorf("panicked")
			}
		}()
		return f()
	}
	mustReject := func(what string, accepted bool) {
		if accepted {
			st.Add(&cs.Case{Coq: "(KSkip [] false 0%N)", Desc: map[string]any{"kind": "must-reject", "what": what}, Class: "malformed/must-reject", Nontrivial: true,
				OracleFail: "malformed input accepted without error: " + what})
		}
	}
	for _, ty := range []byte{0, 2, 3, 4, 5, 6, 7, 8, 9, 10, 11, 12, 13, 14, 15, 16, 19, 20, 21, 23, 24, 25, 26, 27, 28, 29} {
		for _, body := range [][]byte{{0xc3}, {0xca, 0, 0, 0, 0}} {
			in := append([]byte{0x92, ty}, body...)
			if ty == 12 || ty == 19 || ty == 25 {
				in = append([]byte{0x92, ty}, 0x91, 0x01) // bytes / string typed: an array is the wrong shape
			}
			err := safe(fmt.Sprintf("caveat set %x", in), func() error { _, e := macaroon.DecodeCaveats(in); return e })
			mustReject(fmt.Sprintf("caveat set %x (registered type %d with a body of the wrong shape)", in, ty), err == nil)
			tokIn := append(append([]byte{0x94, 0x93, 0xc4, 0x01, 'k', 0xc4, 0x10}, make([]byte, 16)...), 0xc2, 0xa1, 'l')
			tokIn = append(append(tokIn, in...), append([]byte{0xc4, 0x20}, make([]byte, 32)...)...)
			terr := safe(fmt.Sprintf("token whose caveat set is %x", in), func() error { _, e := macaroon.Decode(tokIn); return e })
			mustReject(fmt.Sprintf("token whose caveat set is %x", in), terr == nil)
		}
	}
	// the recorded crashers that are malformed must come back as ERRORS (not merely not crash): F3, F4; a token without nonce fields
	for _, nonce := range [][]byte{{0x92, 0xc3, 0xc4, 0x01, 0x00}, {0x93, 0xc4, 0x01, 'k', 0xc3, 0xc2}, {0x93, 0xc4, 0x01, 'k', 0xc4, 0x01, 0x00, 0xa1, 'x'}, {0x91, 0xc4, 0x01, 'k'}, {0xc3}} {
		tokIn := append(append([]byte{0x94}, nonce...), 0xa1, 'l', 0x90, 0xc4, 0x20)
		tokIn = append(tokIn, make([]byte, 32)...)
		_, err := macaroon.Decode(tokIn)
		mustReject(fmt.Sprintf("token whose nonce is %x (mistyped / short)", nonce), err == nil)
		_, nerr := macaroon.DecodeNonce(tokIn)
		mustReject(fmt.Sprintf("DecodeNonce on a token whose nonce is %x", nonce), nerr == nil)
	}
	emptyNonceTok := append([]byte{0x94, 0x90, 0xa1, 'l', 0x90, 0xc4, 0x20}, make([]byte, 32)...)
	if _, err := macaroon.Decode(emptyNonceTok); true {
		mustReject("token with an empty nonce array", err == nil)
	}
	for _, in := range [][]byte{{0x92, 0xcc, 0xc8, 0x81, 0x91, 0x01, 0x01}, {0xdd, 0x0f, 0xff, 0xff, 0xfe}, {0x91, 0x00}, {0x93, 0x00, 0x92, 0x01, 0x01, 0x04}, {0x92, 0x00}, {0x94, 0x00, 0x92, 0x01, 0x01}, {0x92}, {0xdc, 0x00, 0x03, 0x00, 0x92, 0x01, 0x01, 0x00}} {
		err := safe(fmt.Sprintf("caveat array %x", in), func() error { _, e := macaroon.DecodeCaveats(in); return e })
		mustReject(fmt.Sprintf("caveat array %x (odd length / truncated)", in), err == nil)
	}
	for _, js := range []string{`[{"type":"Organization","body":"x"}]`, `[{"type":"Organization","body":{"id":"one"}}]`, `[{"type":"ValidityWindow","body":{"not_before":"x"}}]`, `[{"type":"Organization","body":{"id":1}`,
		`{"type":"Organization"}`, `[{"type":"Apps","body":{"apps":{"x":"r"}}}]`, `[{"type":"Action","body":7}]`, `[{"type":"ConfineUser","body":{"id":-1}}]`, `[{"type":"GoogleUserID","body":"x"}]`, `[{"type":"IfPresent","body":{"ifs":[{"type":"Organization","body":"x"}],"else":"r"}}]`} {
		set := macaroon.NewCaveatSet()
		mustReject("JSON caveat set "+js, json.Unmarshal([]byte(js), set) == nil)
	}
	// JSON documents and header strings
	nj := 400
	if c.thorough {
		nj = 10000
	}
	jsons := []string{`[{"type":"Organization","body":null}]`, `[{"type":"IfPresent","body":{"ifs":null,"else":"r"}}]`, `[{"type":"IfPresent","body":{"ifs":[{"type":"IfPresent","body":{"ifs":null}}]}}]`,
		`[{"type":"Apps","body":{"apps":null}}]`, `[{"type":"Commands","body":[{"args":null}]}]`, `[{"type":"9999","body":{"a":[1,{"b":null}]}}]`, `[{"type":"3P","body":null}]`, `[null]`, `null`, `[{"type":"GoogleUserID","body":-5}]`,
		`[{"type":"Mutations","body":{"mutations":null}}]`, `[{"type":"Action","body":"*"}]`, `[{"type":"ValidityWindow","body":{"not_before":"x"}}]`, `[{"body":{}}]`, `[{"type":"BindToParentToken","body":null}]`}
	for i := 0; i < nj; i++ {
		js := rng.Pick(r, jsons)
		if r.Bool() {
			b := []byte(js)
			b[r.Intn(len(b))] = byte(32 + r.Intn(95))
			js = string(b)
		}
		res := measure(func() {
			set := macaroon.NewCaveatSet()
			if json.Unmarshal([]byte(js), set) == nil {
				exerciseSet(set)
				mm, _ := macaroon.New([]byte("k"), "l", key)
				mm.Add(set.Caveats...)
				mm.Encode()
			}
			hdr := strings.Repeat(rng.Pick(r, []string{"FlyV1 ", "Bearer ", " ", ",", "fm2_", "fo1_x,", "fm2_AAAA,"}), r.Intn(6)) + js
			exerciseHeader(hdr)
		})
		if res.panicked != "" {
			panics++
			st.Add(&cs.Case{Coq: "(KSkip [] false 0%N)", Desc: map[string]any{"kind": "json", "doc": js}, Class: "malformed/json", OracleFail: "panic: " + res.panicked})
		}
	}
	c.set.Notes["fuzz"] = map[string]any{"inputs": n, "json_docs": nj, "panics": panics, "max_alloc_bytes": worst, "max_alloc_input_prefix": worstIn,
		"alloc_bound":                "256*len + 64 MiB (TotalAlloc delta over all operations on the input); decoding alone 64*len + 8 MiB",
		"remeasured_from_fresh_pool": remeasured}
}

func edgeCavSmall(r *rng.R) m.Cav {
	for {
		c := edgeCav(r, 1)
		b, err := encOne(c.Go())
		if err == nil && len(b) < 400 {
			return c
		}
	}
}

func imin(a, b int) int {
	if a < b {
		return a
	}
	return b
}
