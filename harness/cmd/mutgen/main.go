// Command mutgen enumerates small syntactic mutations of one Go source file and writes the i-th mutant.
//
//	mutgen -file path.go -count            prints the number of mutation sites
//	mutgen -file path.go -n i -out out.go  writes the file with mutation i applied and prints a one-line description
//
// Operators: relational (== != < <= > >=), logical (&& ||), negation removal, integer literal +/-1, +/- swap,
// if-condition forced true/false, continue<->break, removal of an assignment/expression/return-in-if statement.
// It is a support tool for measuring how many test-surviving mutants the checks catch (DESIGN.md section 12); it is not
// part of any registered check.
package main

import (
	"flag"
	"fmt"
	"go/ast"
	"go/parser"
	"go/printer"
	"go/token"
	"os"
	"strconv"
)

type site struct {
	desc  string
	apply func()
}

func main() {
	file := flag.String("file", "", "go source file")
	count := flag.Bool("count", false, "print number of sites")
	n := flag.Int("n", -1, "mutation index")
	out := flag.String("out", "", "output file")
	flag.Parse()
	fset := token.NewFileSet()
	f, err := parser.ParseFile(fset, *file, nil, parser.ParseComments)
	if err != nil {
		fmt.Fprintln(os.Stderr, err)
		os.Exit(2)
	}
	var sites []site
	pos := func(p token.Pos) string { return fset.Position(p).String() }
	rel := map[token.Token][]token.Token{
		token.EQL: {token.NEQ}, token.NEQ: {token.EQL},
		token.LSS: {token.LEQ, token.GTR}, token.LEQ: {token.LSS}, token.GTR: {token.GEQ, token.LSS}, token.GEQ: {token.GTR},
		token.LAND: {token.LOR}, token.LOR: {token.LAND},
		token.ADD: {token.SUB}, token.SUB: {token.ADD},
	}
	var walkBlock func(list *[]ast.Stmt)
	walkBlock = func(list *[]ast.Stmt) {
		for i := range *list {
			i := i
			st := (*list)[i]
			switch s := st.(type) {
			case *ast.ExprStmt, *ast.AssignStmt, *ast.IncDecStmt:
				if as, ok := st.(*ast.AssignStmt); ok && as.Tok == token.DEFINE {
					break // removing a declaration does not compile
				}
				sites = append(sites, site{"delete statement at " + pos(st.Pos()), func() { (*list)[i] = &ast.EmptyStmt{Semicolon: st.Pos(), Implicit: true} }})
			case *ast.BranchStmt:
				if s.Label == nil && (s.Tok == token.CONTINUE || s.Tok == token.BREAK) {
					other := token.BREAK
					if s.Tok == token.BREAK {
						other = token.CONTINUE
					}
					sites = append(sites, site{fmt.Sprintf("%s -> %s at %s", s.Tok, other, pos(s.Pos())), func() { s.Tok = other }})
				}
			}
		}
	}
	ast.Inspect(f, func(nd ast.Node) bool {
		switch x := nd.(type) {
		case *ast.BinaryExpr:
			for _, alt := range rel[x.Op] {
				alt := alt
				if (x.Op == token.ADD || x.Op == token.SUB) && isStringy(x) {
					continue
				}
				old := x.Op
				sites = append(sites, site{fmt.Sprintf("%s -> %s at %s", old, alt, pos(x.OpPos)), func() { x.Op = alt }})
			}
		case *ast.UnaryExpr:
			if x.Op == token.NOT {
				sites = append(sites, site{"drop ! at " + pos(x.OpPos), func() { x.Op = token.ADD; *x = ast.UnaryExpr{OpPos: x.OpPos, Op: token.NOT, X: &ast.UnaryExpr{Op: token.NOT, X: x.X}} }})
			}
		case *ast.BasicLit:
			if x.Kind == token.INT {
				if v, err := strconv.ParseInt(x.Value, 0, 64); err == nil && v >= 0 && v < 1<<31 {
					old := x.Value
					sites = append(sites, site{fmt.Sprintf("%s -> %d at %s", old, v+1, pos(x.Pos())), func() { x.Value = strconv.FormatInt(v+1, 10) }})
					if v > 0 {
						sites = append(sites, site{fmt.Sprintf("%s -> %d at %s", old, v-1, pos(x.Pos())), func() { x.Value = strconv.FormatInt(v-1, 10) }})
					}
				}
			}
		case *ast.IfStmt:
			c := x.Cond
			sites = append(sites, site{"if-condition forced false at " + pos(x.Pos()), func() { x.Cond = &ast.BinaryExpr{X: &ast.ParenExpr{X: c}, Op: token.LAND, Y: ast.NewIdent("false")} }})
			sites = append(sites, site{"if-condition forced true at " + pos(x.Pos()), func() { x.Cond = &ast.BinaryExpr{X: &ast.ParenExpr{X: c}, Op: token.LOR, Y: ast.NewIdent("true")} }})
		case *ast.BlockStmt:
			walkBlock(&x.List)
		case *ast.CaseClause:
			walkBlock(&x.Body)
		}
		return true
	})
	if *count {
		fmt.Println(len(sites))
		return
	}
	if *n < 0 || *n >= len(sites) {
		fmt.Fprintln(os.Stderr, "index out of range")
		os.Exit(2)
	}
	sites[*n].apply()
	o, err := os.Create(*out)
	if err != nil {
		fmt.Fprintln(os.Stderr, err)
		os.Exit(2)
	}
	defer o.Close()
	if err := printer.Fprint(o, fset, f); err != nil {
		fmt.Fprintln(os.Stderr, err)
		os.Exit(2)
	}
	fmt.Println(sites[*n].desc)
}

// isStringy: a + b on string literals / obviously string operands (mutating to - does not compile)
func isStringy(x *ast.BinaryExpr) bool {
	for _, e := range []ast.Expr{x.X, x.Y} {
		if bl, ok := e.(*ast.BasicLit); ok && (bl.Kind == token.STRING || bl.Kind == token.CHAR) {
			return true
		}
		if be, ok := e.(*ast.BinaryExpr); ok && isStringy(be) {
			return true
		}
	}
	return false
}
